"""C06 - both halves of a bidirectional /io shell come from the same request."""
import json, os
import brokerlib as B
import vlib

CLAUSES = {6: "C06 monitor failed: the attached input and output streams belong to different /io requests (or an /io half is paired with a "
              "unidirectional stream), or a refused half was given I/O"}


def check(run):
    vlib.static_obligations(run)
    import c09
    c09.routes_obligation(run)      # /io and /io/ are inOutHandler's and nothing else routes to the shell handlers
    binp = B.build(run)
    if not binp:
        return
    hs = []
    for base in ("idle", "uni", "half", "teardown"):
        hs += B.io_orders(2, base)
    n3 = B.io_orders(3, "idle") + B.io_orders(3, "teardown")
    if run.tier == "quick":
        n3 = n3[:: 3]
    hs += n3
    if run.tier != "quick":
        hs += B.io_orders(3, "uni") + B.io_orders(3, "half") + run.rng.sample(B.io_orders(4, "idle"), 4000)
    B.run_stream(run, binp, "ioorders", 6, hs, CLAUSES,
                 "EXHAUSTIVE admission orders of the 2n halves of n simultaneously arriving /io requests: n=2 (all 24 orders) on an idle broker, "
                 "with a unidirectional shell attached, half attached and in its tear-down window; n=3 (720 orders; every third in the quick tier) "
                 "idle and tear-down [thorough: all bases, n=4 sampled]; after admission a probe line is entered and every request's output half "
                 "is offered output, so cross-pairing is observable; non-trivial = an /io request was involved (always)")
    # staggered arrivals: requests come and GO between the arrivals of others (whatever numbers requests is reused must not make keys collide)
    def staggered(first_half, late_half, ends):
        io = lambda si: {"op": "ioreq", "si": si, "so": si + 1, "wk": "both", "wfail": -1, "ffail": -1}
        ops = [io(1), {"op": "go", "s": 1}, {"op": "go", "s": 2},            # 'old' attached
               io(3)]                                                          # 'slow' arrives while old is there (both halves wait)
        ops += {"out": [{"op": "data", "s": 2, "d": "", "err": "eof"}, {"op": "release", "s": 2}, {"op": "release", "s": 1}],
                "in": [{"op": "cancel", "s": 1}, {"op": "release", "s": 1}, {"op": "release", "s": 2}]}[ends]   # old hangs up and returns
        ops += [{"op": "go", "s": 3 if first_half == "in" else 4},            # one half of 'slow' is admitted
                io(5),                                                         # 'late' arrives only now
                {"op": "go", "s": 6 if late_half == "out" else 5},             # ... and one of ITS halves goes for the free side
                {"op": "go", "s": 4 if first_half == "in" else 3}, {"op": "go", "s": 5 if late_half == "out" else 6},
                {"op": "line", "l": B.K(b"probe")}]
        ops += [{"op": "data", "s": h, "d": B.K(b"out%d" % h), "err": ""} for h in (4, 6)]
        return ops
    stg = [staggered(a, b, e) for a in ("in", "out") for b in ("in", "out") for e in ("in", "out")]
    B.run_stream(run, binp, "staggered", 6, stg, CLAUSES,
                 "staggered arrivals: an /io shell is attached, a second request arrives and waits, the first hangs up and returns, one half of the "
                 "second is admitted, only then a third request arrives and goes for the free side - in all 8 combinations of which halves and which "
                 "side of the first shell ends first")
    # a wedged peer: the old shell's writer is stuck inside Write when its output half ends; time passes; a new /io request arrives; the operator types
    def wedged(pause, second):
        io = lambda si: {"op": "ioreq", "si": si, "so": si + 1, "wk": "both", "wfail": -1, "ffail": -1}
        ops = [io(1), {"op": "go", "s": 1}, {"op": "go", "s": 2}, {"op": "armw", "s": 1}, {"op": "line", "l": B.K(b"BUSY")},
               {"op": "data", "s": 2, "d": "", "err": "eof"}, {"op": "release", "s": 2}, {"op": "sleep", "ms": pause},
               {"op": "release", "s": 1}]      # (lets the old input half go IF it has already left its proxy: it must not have)
        ops += ([io(3), {"op": "go", "s": 3}, {"op": "go", "s": 4}] if second == "io" else
                [{"op": "admit", "s": 3, "d": "in", "key": B.K(b"n"), "wk": "both", "wfail": -1, "ffail": -1}, {"op": "admit", "s": 4, "d": "out", "key": B.K(b"n")}])
        ops += [{"op": "line", "l": B.K(b"probe-1")}, {"op": "line", "l": B.K(b"probe-2")}, {"op": "data", "s": 4, "d": B.K(b"out4"), "err": ""},
                {"op": "relw", "s": 1}, {"op": "release", "s": 1}, {"op": "line", "l": B.K(b"probe-3")}]
        return {"ops": ops, "nocorr": True}
    B.run_stream(run, binp, "wedged", 6, [wedged(p, sec) for p in (0, 499, 501, 5000, 60000) for sec in ("io", "uni")], CLAUSES,
                 "a wedged peer: the attached /io shell's writer is stuck inside Write when its output half ends; 0 ms ... 60 s pass; a new /io request (or a "
                 "unidirectional pair) arrives and the operator types: as long as the old input half has not returned nothing else may be attached, and no "
                 "line may reach a stream of another request than the attached output's (monitor only)")
    n = 300 if run.tier == "quick" else 5000
    hs2 = [B.gen_history(run.rng, run.rng.choice([10, 20, 40]), "mixed") for _ in range(n)]
    B.run_stream(run, binp, "histories", 6, hs2, CLAUSES, "random mixed /i /o /io histories (see C01)")
    # at the HTTP surface: two /io requests from ONE client address arriving together (what the handlers hand the broker must keep them apart)
    okh, hbin, hlog = vlib.build_overlay_test(run.rundir, "internal/hsrv", go="go")
    if not okh:
        run.oblige("hsrv harness builds against /repo", False, hlog)
    else:
        import concurrent.futures as cf
        nproc, rounds = (6, 8) if run.tier == "quick" else (8, 60)
        hc = [{"i": k, "cfg": {}, "acts": [{"a": "iopair", "rounds": rounds}]} for k in range(nproc)]
        with cf.ThreadPoolExecutor(max_workers=nproc) as ex:
            outs = list(ex.map(lambda k: vlib.run_overlay_test(hbin, "TestVerifHsrv", [hc[k]], run.rundir, tag="c06io_%d" % k,
                                                                  env=dict(os.environ, VERIF_TMP=run.rundir), timeout=600), range(nproc)))
        # a unidirectional client guessing what an /io request's key might look like (readable prefix + counter, percent-encoded slash, ...)
        H = lambda x: x.encode().hex()
        guesses = ["io%2F1", "io%2F2", "io1", "io-1", "1", "io%2F", "bidir1"]
        gacts = []
        # ... and /io requests which themselves carry something that looks like an ID (path suffix, query): they are still requests of their own
        iopaths = {"io/kittens:i": ("GET /i/kittens", "/io/kittens"), "io/kittens:o": ("POST /o/kittens", "/io/kittens"), "io/kittens/": ("GET /i/kittens", "/io/kittens/"),
                   "io?id": ("POST /o/kittens", "/io?id=kittens"), "io/%6Bittens": ("GET /i/kittens", "/io/%6Bittens")}
        guesses += list(iopaths)
        for g in guesses:
            first = "POST /o/%s" % g if g not in iopaths else iopaths[g][0]
            first += " HTTP/1.1\r\nHost: h\r\n" + ("Transfer-Encoding: chunked\r\n" if first.startswith("POST") else "") + "\r\n"
            gacts += [{"a": "open", "id": "u", "req": H(first), "quiet_ms": 100},
                      {"a": "open", "id": "b", "req": H("POST %s HTTP/1.1\r\nHost: h\r\nTransfer-Encoding: chunked\r\n\r\n" % (iopaths[g][1] if g in iopaths else "/io")), "quiet_ms": 150},
                      {"a": "line", "l": H("PROBE"), "quiet_ms": 80}, {"a": "peek", "id": "b", "quiet_ms": 10},
                      {"a": "close", "id": "b", "quiet_ms": 100}, {"a": "close", "id": "u", "quiet_ms": 250}]
        gres, gerr = vlib.run_overlay_test(hbin, "TestVerifHsrv", [{"i": 0, "cfg": {}, "acts": gacts}], run.rundir, tag="c06guess",
                                           env=dict(os.environ, VERIF_TMP=run.rundir), timeout=300)
        forged = []
        if gres:
            ga = gres[0].get("acts") or []
            ready = (gres[0].get("consts") or {}).get("ready", "Shell is ready")
            for n, g in enumerate(guesses):
                A = ga[6 * n:6 * n + 6]
                got_ready = any(ready in bytes.fromhex(l["line"]).decode(errors="replace") for a in A[:3] for l in a.get("och") or [])
                got_line = b"PROBE" in bytes.fromhex((A[3] if len(A) > 3 else {}).get("got", "") or "")
                if got_ready or got_line:
                    forged.append({"unidirectional_request": ("POST /o/" + g) if g not in iopaths else iopaths[g][0], "then": "POST " + (iopaths[g][1] if g in iopaths else "/io"), "ready_notice": got_ready, "operator_line_reached_the_io_request": got_line})
        for b in forged[:1]:
            run.violation("http-io-forged-key", "a unidirectional /o/{id} client and a later /io request were combined into one shell: the /io request's key can be "
                          "named by a client", {"stream": "http-io", "input": b, "detail": forged})
        run.oblige("HTTP surface: a unidirectional client cannot name an /io request's key (%d guesses, incl. percent-encoded slashes)" % len(guesses),
                   not gerr and bool(gres) and not forged, json.dumps(forged[:3]) + str(gerr))
        pairs = [p for o in outs if o[0] for p in ((o[0][0].get("acts") or [{}])[0].get("pairs") or [])]
        crossed = [p for p in pairs if p.get("in") and p.get("out") and set(p["in"]) != set(p["out"])]
        attached = sum(1 for p in pairs if p.get("in") and p.get("out"))
        for b in crossed[:1]:
            run.violation("http-io-crosspair", "two /io requests from the same client address arrived together and the shell was made of halves of BOTH: the "
                          "operator's line went to one request, the displayed output came from the other",
                          {"stream": "http-io", "input": {"requests_at_once": 2, "client": "127.0.0.1 (both)"}, "detail": b})
        run.oblige("HTTP surface: %d rounds of two simultaneous /io requests from one address on a real Server - the shell's input and output belong to "
                   "the same request (%d rounds ended with a full shell)" % (len(pairs), attached),
                   not crossed and len(pairs) == nproc * rounds and attached >= max(1, len(pairs) // 4), json.dumps(crossed[:3]) + str([o[1] for o in outs if o[1]][:1]))
        run.cov["http_io_rounds"] = len(pairs)
    # really concurrent requests (a one-sided TEST: the non-atomic-counter kind of defect only shows under a real scheduler)
    pass
    outf = os.path.join(run.rundir, "stress.json")
    rounds = 1500 if run.tier == "quick" else 40000
    try:
        rc, o, e = vlib.sh([binp, "-test.run", "^TestVerifIoStress$", "-test.count=1"], cwd=run.rundir, timeout=600,
                           env=dict(os.environ, VERIF_OUT=outf, VERIF_STRESS=str(rounds)))
        st = json.load(open(outf))
    except Exception as ex:
        rc, st = 1, {"error": str(ex)}
    for b in (st.get("crosspairs") or [])[:1]:
        run.violation("io-stress-crosspair", "halves of two different concurrently arriving /io requests were both admitted (real scheduler, no gates)",
                      {"stream": "stress", "input": {"rounds": rounds}, "detail": b})
    run.oblige("stress test: %d rounds of 2-4 really concurrent ConnectInOut calls, never two requests attached" % rounds,
               rc == 0 and not st.get("crosspairs") and "error" not in st, json.dumps(st)[:1500])
    run.cov["stress_rounds"] = st.get("rounds", 0)
    # the same stress under Go's race detector: an unsynchronised access to what distinguishes the requests (the key counter) is reported
    # whatever the interleaving happened to be
    okr, rbin, rlog = vlib.build_overlay_test(run.rundir, "internal/iobroker", race=True)
    if not okr:
        run.oblige("race-detector build of the harness", False, rlog[-2000:])
    else:
        outr = os.path.join(run.rundir, "stress_race.json")
        rr = 150 if run.tier == "quick" else 3000
        try:
            rc2, o2, e2 = vlib.sh([rbin, "-test.run", "^TestVerifIoStress$", "-test.count=1"], cwd=run.rundir, timeout=900,
                                  env=dict(os.environ, VERIF_OUT=outr, VERIF_STRESS=str(rr), GORACE="halt_on_error=0"))
            txt = (o2 + e2).decode(errors="replace")
        except Exception as ex:
            rc2, txt = 1, str(ex)
        races = txt.count("WARNING: DATA RACE")
        if races:
            first = txt[txt.index("WARNING: DATA RACE"):][:2500]
            run.violation("io-stress-data-race", "Go's race detector reports unsynchronised accesses in the broker while /io requests arrive concurrently: "
                          "what keeps two requests apart (per-request key, slots) is not safely shared, so halves of different requests can pair",
                          {"stream": "stress-race", "input": {"rounds": rr, "concurrent_requests": "2-4 per round"}, "detail": {"reports": races, "first_report": first}})
        run.oblige("stress test under the race detector: %d rounds of 2-4 concurrent ConnectInOut calls, no data race reported" % rr,
                   rc2 == 0 and not races, txt[-1500:])
        run.cov["stress_race_rounds"] = rr
    run.assumptions += ["a client cannot send the random bidirectional sentinel as an ID; the per-request counter is atomic (Go's atomic.Uint64): "
                        "the model gives every request its own key, the harness drives requests through the real ConnectInOut"]
    run.trusted += ["harness/overlay/iobroker", "props/brokerlib.py", "coq/Model/Broker.v tied by this correspondence"]


def replay(run, path):
    import json
    if json.load(open(path)).get("case", {}).get("stream") == "stress":
        print("stress finding (scheduler dependent): re-run  bin/check C06 --tier thorough ; detail:", json.load(open(path))["case"].get("detail"))
        return 1
    return B.replay(run, path, 6)
