"""C06 - both halves of a bidirectional /io shell come from the same request."""
import brokerlib as B
import vlib

CLAUSES = {6: "C06 monitor failed: the attached input and output streams belong to different /io requests (or an /io half is paired with a "
              "unidirectional stream), or a refused half was given I/O"}


def check(run):
    vlib.static_obligations(run)
    binp = B.build(run)
    if not binp:
        return
    hs = []
    for base in ("idle", "uni", "half", "teardown"):
        hs += B.io_orders(2, base)
    n3 = B.io_orders(3, "idle") + B.io_orders(3, "teardown")
    if run.tier == "quick":
        n3 = n3[:: 3]
    hs += n3
    if run.tier != "quick":
        hs += B.io_orders(3, "uni") + B.io_orders(3, "half") + run.rng.sample(B.io_orders(4, "idle"), 4000)
    B.run_stream(run, binp, "ioorders", 6, hs, CLAUSES,
                 "EXHAUSTIVE admission orders of the 2n halves of n simultaneously arriving /io requests: n=2 (all 24 orders) on an idle broker, "
                 "with a unidirectional shell attached, half attached and in its tear-down window; n=3 (720 orders; every third in the quick tier) "
                 "idle and tear-down [thorough: all bases, n=4 sampled]; after admission a probe line is entered and every request's output half "
                 "is offered output, so cross-pairing is observable; non-trivial = an /io request was involved (always)")
    n = 300 if run.tier == "quick" else 5000
    hs2 = [B.gen_history(run.rng, run.rng.choice([10, 20, 40]), "mixed") for _ in range(n)]
    B.run_stream(run, binp, "histories", 6, hs2, CLAUSES, "random mixed /i /o /io histories (see C01)")
    # really concurrent requests (a one-sided TEST: the non-atomic-counter kind of defect only shows under a real scheduler)
    import json, os
    outf = os.path.join(run.rundir, "stress.json")
    rounds = 1500 if run.tier == "quick" else 40000
    try:
        rc, o, e = vlib.sh([binp, "-test.run", "^TestVerifIoStress$", "-test.count=1"], cwd=run.rundir, timeout=600,
                           env=dict(os.environ, VERIF_OUT=outf, VERIF_STRESS=str(rounds)))
        st = json.load(open(outf))
    except Exception as ex:
        rc, st = 1, {"error": str(ex)}
    for b in (st.get("crosspairs") or [])[:1]:
        run.violation("io-stress-crosspair", "halves of two different concurrently arriving /io requests were both admitted (real scheduler, no gates)",
                      {"stream": "stress", "input": {"rounds": rounds}, "detail": b})
    run.oblige("stress test: %d rounds of 2-4 really concurrent ConnectInOut calls, never two requests attached" % rounds,
               rc == 0 and not st.get("crosspairs") and "error" not in st, json.dumps(st)[:1500])
    run.cov["stress_rounds"] = st.get("rounds", 0)
    run.assumptions += ["a client cannot send the random bidirectional sentinel as an ID; the per-request counter is atomic (Go's atomic.Uint64): "
                        "the model gives every request its own key, the harness drives requests through the real ConnectInOut"]
    run.trusted += ["harness/overlay/iobroker", "props/brokerlib.py", "coq/Model/Broker.v tied by this correspondence"]


def replay(run, path):
    import json
    if json.load(open(path)).get("case", {}).get("stream") == "stress":
        print("stress finding (scheduler dependent): re-run  bin/check C06 --tier thorough ; detail:", json.load(open(path))["case"].get("detail"))
        return 1
    return B.replay(run, path, 6)
