"""C07 - the script served at /c yields a working, correctly addressed shell."""
import json, os, re, urllib.parse
import vlib

IMPORTS = "From CRS Require Import Lib.Bytes Model.Script Judge.Common Judge.C07."
CLAUSES = {1: "a script was due (template usable, callback address determinable) but the request was answered with an error",
           2: "the script is not the template rendered with the listener's pin, the callback address chosen by precedence "
              "(c2 parameter > c2 header > Host in IDNA-ASCII form > SNI + listen port unless 443) and ONE fresh ID in both curl commands",
           3: "the ID is empty, too long or contains characters outside [0-9a-z]",
           4: "a missing / unparsable / failing template or an undeterminable address did not produce an error status with an empty body",
           10: "model/implementation differ on the error status"}
H = lambda s: (s if isinstance(s, bytes) else s.encode()).hex()
DEFAULT = open(os.path.join(vlib.REPO, "internal/hsrv/script.tmpl"), "rb").read()
TMPLS = {"default": DEFAULT, "unparsable": b"{{ if }", "execfails": b"#!/bin/sh\n{{.PubkeyFP}} {{.Nope}}\n", "literal": b"echo literal-template\n",
         "literal2": b"echo LITERAL-TEMPLATE\n", "unparsable2": b"{{ if }" + b"x" * 14 + b"\n"}
TCOQ = {"none": "TDefault", "default": "TDefault", "unparsable": "TUnparsable", "unparsable2": "TUnparsable", "unparsable_big": "TUnparsable", "execfails": "TExecFails", "missing": "TMissing"}
HOSTS = ["h.example", "h.example:8443", "bücher.example", "[::1]:8443", "", "UPPER.Example", "xn--bcher-kva.example", "a" * 70 + ".example", "h․example"]
C2S = ["", "cb.example:4444", "10.0.0.1", "%s%d", "a b", "[::1]:1", " lead.example", "trail.example ", "\ttab.example\n"]
SNIS = ["", "sni.example", "::1"]


PAR_REQ = "GET /c?c2=par.example:1 HTTP/1.1\r\nHost: h\r\nConnection: close\r\n\r\n"
PAR_ACT = lambda w, r: {"a": "par", "workers": w, "rounds": r, "reqs": [H(PAR_REQ)], "quiet_ms": 50}
PAR_META = {"form": "par.example:1", "hdr": "", "host": "h", "sni": "", "tmpl": "none", "raw": True, "par": True}


def tmpl_term(kind):
    return "(TLiteral %s)" % vlib.coq_str(TMPLS[kind]) if kind.startswith("literal") else TCOQ[kind]


def mk_req(rng):
    form, hdr = rng.choice(C2S if rng.randrange(3) == 0 else [""]), rng.choice(C2S if rng.randrange(3) == 0 else [""])
    host, sni = rng.choice(HOSTS), rng.choice(SNIS)
    how = rng.choice(["query", "post"])
    a = {"a": "direct", "host": host, "sni": sni, "headers": {}, "quiet_ms": 10}
    if hdr:
        a["headers"]["c2"] = hdr
    if form and how == "post":
        a.update(method="POST", target="/c", body=H("c2=" + urllib.parse.quote(form)), ctype="application/x-www-form-urlencoded")
    else:
        a["target"] = "/c" + ("?c2=" + urllib.parse.quote(form) if form else "")
    return a, {"form": form, "hdr": hdr, "host": host, "sni": sni}


def make_cases(rng, tier):
    cases = []
    n = 40 if tier == "quick" else 600
    # default template (no file), many request shapes; plus exhaustive presence combinations
    acts, meta = [], []
    for form in ("", "cb.example:1"):
        for hdr in ("", "hdr.example"):
            for host in ("", "h.example", "bücher.example:8443"):
                for sni in ("", "sni.example"):
                    a = {"a": "direct", "host": host, "sni": sni, "headers": ({"c2": hdr} if hdr else {}), "quiet_ms": 10,
                         "target": "/c" + ("?c2=" + form if form else "")}
                    acts.append(a); meta.append({"form": form, "hdr": hdr, "host": host, "sni": sni, "tmpl": "none"})
    for _ in range(n):
        a, m = mk_req(rng); m["tmpl"] = "none"; acts.append(a); meta.append(m)
    # real TLS requests: HTTP/1.0 without Host -> SNI; HTTP/1.1 with Host
    for sni in ("sni.example", ""):
        acts.append({"a": "raw", "first_byte_ms": 15000, "sni": sni, "req": H("GET /c HTTP/1.0\r\n\r\n"), "quiet_ms": 10})
        meta.append({"form": "", "hdr": "", "host": "", "sni": sni, "tmpl": "none", "raw": True})
    acts.append({"a": "raw", "first_byte_ms": 15000, "sni": "sni.example", "req": H("GET /c HTTP/1.1\r\nHost: real.example:99\r\nConnection: close\r\n\r\n"), "quiet_ms": 10})
    meta.append({"form": "", "hdr": "", "host": "real.example:99", "sni": "sni.example", "tmpl": "none", "raw": True})
    acts.append(PAR_ACT(16 if tier == "quick" else 32, 10 if tier == "quick" else 60)); meta.append(dict(PAR_META))
    acts.append({"a": "runscript"}); meta.append({"run": True})
    cases.append({"cfg": {}, "acts": acts, "_meta": meta})
    # a template file edited, broken, removed and re-created between requests
    for rep in range(2 if tier == "quick" else 30):
        acts, meta, state = [], [], "default"
        seq = ["default", "unparsable", "missing", "literal", "execfails", "default", "missing", "default"]
        rng.shuffle(seq)
        for st in ["default"] + seq:
            if st != state or True:
                acts.append({"a": "tmpl", "c": H(TMPLS[st])} if st != "missing" else {"a": "tmpl"}); meta.append({"edit": st}); state = st
            for _ in range(2):
                a, m = mk_req(rng); m["tmpl"] = state; acts.append(a); meta.append(m)
        cases.append({"cfg": {"tmpl": H(DEFAULT)}, "acts": acts, "_meta": meta})
    # the configured template path is a symbolic link which is re-pointed to a new release (ln -s + mv -T) and the old release deleted; then removed, re-created
    acts, meta = [], []
    for st in ("default", "literal", "default", "unparsable", "literal", "missing", "literal"):
        acts.append({"a": "tmpl", "c": H(TMPLS[st])} if st != "missing" else {"a": "tmpl"}); meta.append({"edit": st})
        for _ in range(2):
            a, m = mk_req(rng); m["tmpl"] = st; acts.append(a); meta.append(m)
    cases.append({"cfg": {"tmpl": H(DEFAULT), "tmpl_symlink": True}, "acts": acts, "_meta": meta})
    # edits which change neither the size nor the modification time of the file (all three texts are 22 bytes)
    assert len({len(TMPLS[x]) for x in ("literal", "literal2", "unparsable2")}) == 1
    for rep in range(1 if tier == "quick" else 10):
        acts, meta = [], []
        seq = ["literal", "literal2", "unparsable2", "literal", "literal2"]
        if rep:
            rng.shuffle(seq)
        for st in seq:
            acts.append({"a": "tmpl", "c": H(TMPLS[st]), "keep_mtime": True}); meta.append({"edit": st})
            for _ in range(2):
                a, m = mk_req(rng); m["tmpl"] = st; acts.append(a); meta.append(m)
        cases.append({"cfg": {"tmpl": H(DEFAULT)}, "acts": acts, "_meta": meta})
    # a template larger than 64 KiB (embedded shell functions): served whole; an error beyond byte 65536 is still an error
    big = b"echo big-template\n" + b"# padding padding padding padding padding padding padding padding\n" * 1100 + b"echo end-of-big-template\n"
    TMPLS["literal_big"] = big
    TMPLS["unparsable_big"] = big + b"{{ if }\n"
    acts, meta = [], []
    for st in ("literal_big", "unparsable_big", "literal_big"):
        acts.append({"a": "tmpl", "c": H(TMPLS[st])}); meta.append({"edit": st})
        a, m = mk_req(rng); m["tmpl"] = st; acts.append(a); meta.append(m)
    cases.append({"cfg": {"tmpl": H(DEFAULT)}, "acts": acts, "_meta": meta})
    # a template path whose file does not exist when the server starts: an error until it appears, then it is used, edited, removed, re-created
    acts, meta = [], []
    a, m = mk_req(rng); m["tmpl"] = "missing"; acts.append(a); meta.append(m)
    for st in ("literal", "literal2", "missing", "default", "unparsable", "literal"):
        acts.append({"a": "tmpl", "c": H(TMPLS[st])} if st != "missing" else {"a": "tmpl"}); meta.append({"edit": st})
        a, m = mk_req(rng); m["tmpl"] = st; acts.append(a); meta.append(m)
    cases.append({"cfg": {"tmpl_absent": True}, "acts": acts, "_meta": meta})
    # listening on 443: the SNI is used without a port
    acts, meta = [], []
    for sni in ("sni.example", "other.example"):
        acts.append({"a": "direct", "host": "", "sni": sni, "headers": {}, "target": "/c", "quiet_ms": 10}); meta.append({"form": "", "hdr": "", "host": "", "sni": sni, "tmpl": "none"})
    cases.append({"cfg": {"listen": "127.0.0.1:443"}, "acts": acts, "_meta": meta, "_optional": True})
    for k, c in enumerate(cases):
        c["i"] = k
    return cases


def terms(case, res):
    out, inputs, ids = [], [], []
    port = (res.get("addr") or ":0").rsplit(":", 1)[1]
    fp = res.get("fingerprint", "")
    pairs = []
    for m, a in zip(case["_meta"], res.get("acts") or []):
        if m.get("par"):            # requests served at the same time: each response is a request of its own
            pairs += [(dict(m, par=False), {"status": o.get("status"), "body": o.get("body", "")}) for o in a.get("par") or []]
        else:
            pairs.append((m, a))
    for m, a in pairs:
        if "form" not in m:
            continue
        body = bytes.fromhex(a.get("body", "") or "")
        mid = re.search(rb"/i/([^ ]*) ", body)
        idb = mid.group(1) if mid else b""
        if idb and m["tmpl"] in ("none", "default"):
            ids.append(idb)
        if m.get("raw"):
            # environment oracle for raw requests: python's view of the Host (ASCII hosts only are used raw)
            ha = "(Some %s)" % vlib.coq_str(m["host"].encode())
        elif a.get("host_ascii_err"):
            ha = "None"
        else:
            ha = "(Some %s)" % vlib.coq_str(bytes.fromhex(a.get("host_ascii", "")))
        rv = "{| form_c2 := %s; hdr_c2 := %s; host_ascii := %s; sni := %s; lport := %s |}" % (
            vlib.coq_str(m["form"].encode()), vlib.coq_str(m["hdr"].encode()), ha, vlib.coq_str(m["sni"].encode()), vlib.coq_str(port.encode()))
        out.append("mk %s %s %s %d %s %s" % (tmpl_term(m["tmpl"]), vlib.coq_str(fp.encode()), rv, a.get("status") or 0, vlib.coq_str(body), vlib.coq_str(idb)))
        inputs.append(dict(m, status=a.get("status"), body=body[:400].decode(errors="replace"), listen_port=port))
    return out, inputs, ids


def c2chain_obligation(run):
    okc, gen, clog = vlib.run_translator(run, "c2chain")
    run.checker_cmds.append("translator/c2chain (go/parser over /repo/internal/hsrv/script.go) -> GenC2.v ; coqc GenDepC07.v (c2_sources_match c2url_sources = true)")
    if not okc:
        run.oblige("translator c2chain ran on /repo's working tree", False, clog[-2000:])
        return
    open(os.path.join(run.rundir, "GenC2.v"), "w").write(gen)
    open(os.path.join(run.rundir, "GenDepC07.v"), "w").write(
        "From Coq Require Import List String.\nFrom CRS Require Import Lib.Bytes Model.Script Props.C07.\nFrom Gen Require Import GenC2.\n"
        "Theorem c07_tree_c2_sources : c2url_found = 1%nat /\\ c2url_other_statements = 0%nat /\\ c2_sources_match c2url_sources = true.\n"
        "Proof. vm_compute. repeat split; reflexivity. Qed.\nPrint Assumptions c07_tree_c2_sources.\n")
    rc1, o1, e1 = vlib.coqc("GenC2.v", run.rundir, extra_q=[(run.rundir, "Gen")])
    rc2, o2, e2 = vlib.coqc("GenDepC07.v", run.rundir, extra_q=[(run.rundir, "Gen")]) if rc1 == 0 else (1, "", "")
    run.oblige("per-run obligation c07_tree_c2_sources: Server.c2URL of the working tree consults, in this order and nothing else, the c2 form/query "
               "parameter, the c2 header, the punycoded Host and the TLS server name - the chain Model/Script.c2url and the seven precedence theorems are about",
               rc1 == 0 and rc2 == 0, (gen + o1 + e1 + o2 + e2)[-2500:])


def check(run):
    vlib.static_obligations(run)
    c2chain_obligation(run)
    ok, binp, log = vlib.build_overlay_test(run.rundir, "internal/hsrv", go="go")
    run.checker_cmds.append("go test -c -tags verif -overlay (harness/overlay/hsrv): real Server; direct handler calls, raw TLS requests, template edits, a script run by /bin/sh with real curl")
    if not ok:
        run.oblige("hsrv harness builds against /repo", False, log)
        return
    cases = make_cases(run.rng, run.tier)
    send = [{k: v for k, v in c.items() if not k.startswith("_")} for c in cases]
    res, err = vlib.run_overlay_test(binp, "TestVerifHsrv", send, run.rundir, tag="c07", env=dict(os.environ, VERIF_TMP=run.rundir), timeout=1200)
    if err or not res or len(res) != len(cases):
        run.oblige("hsrv harness ran all cases", False, str(err))
        return
    allterms, allinputs, dup, owner = [], [], [], []
    for c, r in zip(cases, res):
        if r.get("new_error"):
            if not c.get("_optional"):
                run.oblige("server started for case %d" % c["i"], False, r["new_error"])
            else:
                run.cov["port_443_case"] = "skipped: " + r["new_error"][:100]
            continue
        t, i, ids = terms(c, r)
        allterms += t; allinputs += i; owner += [c["i"]] * len(t)
        if len(set(ids)) != len(ids):
            dup.append({"case": c["i"], "ids": [x.decode() for x in ids][:20]})
        for m, a in zip(c["_meta"], r.get("acts") or []):
            if m.get("run"):
                okrun = a.get("ready") and a.get("echoed") and a.get("gone") and not a.get("killed")
                run.oblige("behavioural test: the served script piped to /bin/sh with real curl attaches a shell, a command round-trips, exit ends it", bool(okrun),
                           json.dumps({k: a.get(k) for k in ("ready", "echoed", "gone", "killed", "error")}))
                if not okrun:
                    run.violation("script-does-not-work", "the script served at /c, run by /bin/sh with real curl, did not yield a working shell",
                                  {"stream": "runscript", "input": {"script": bytes.fromhex(a.get("script", "")).decode(errors="replace")}, "detail": {k: a.get(k) for k in ("ready", "echoed", "gone", "killed", "error")}})
    flagged, tgs, errors, _ = vlib.coq_eval(run.rundir, "c07", IMPORTS, "case", allterms, "judge_all")
    run.checker_cmds.append("coqc c07_k.v (vm_compute of Judge.C07.judge_all)")
    run.oblige("case evaluation inside Coq completed", not errors, "\n".join(errors))
    # Cases made of sequential requests are deterministic by construction: something flagged there is confirmed by running that case once more on a
    # fresh server before it is reported (one check in a fresh-copy run once reported ten such requests which no later run reproduced); what does not
    # reproduce is recorded, not reported.  Cases with concurrent requests are reported as they are.
    suspects = sorted({owner[i] for i, sv, c in flagged} | {d["case"] for d in dup})
    retry = [k for k in suspects if not any(m.get("par") for m in cases[k]["_meta"])]
    if retry:
        res2, err2 = vlib.run_overlay_test(binp, "TestVerifHsrv", [send[k] for k in retry], run.rundir, tag="c07again", env=dict(os.environ, VERIF_TMP=run.rundir), timeout=600)
        confirmed = set()
        if not err2 and res2 and len(res2) == len(retry):
            for k, r2 in zip(retry, res2):
                t2, i2, ids2 = terms(cases[k], r2)
                f2, _, e2, _ = vlib.coq_eval(run.rundir, "c07again%d" % k, IMPORTS, "case", t2, "judge_all") if t2 else ([], [], [], None)
                if f2 or e2 or len(set(ids2)) != len(ids2) or r2.get("new_error"):
                    confirmed.add(k)
        else:
            confirmed = set(retry)
        gone = [k for k in retry if k not in confirmed]
        if gone:
            run.cov["flagged_once_but_not_reproduced"] = [{"case": k, "first_run": [dict(allinputs[i], clause=CLAUSES.get(c, c)) for i, sv, c in flagged if owner[i] == k][:3]} for k in gone]
            flagged = [f for f in flagged if owner[f[0]] not in gone]
            dup = [d for d in dup if d["case"] not in gone]
    viol = [f for f in flagged if f[1] == 2]
    for idx, sev, cl in viol[:10]:
        run.violation("script-clause-%d" % cl, CLAUSES.get(cl, str(cl)), {"stream": "requests", "input": allinputs[idx], "clause": cl})
    for d in dup[:1]:
        run.violation("ids-not-fresh", "two scripts of one run carry the same ID", {"stream": "requests", "input": d})
    run.oblige("correspondence + monitor: %d requests to /c - script = template(pin, address by precedence, one fresh ID) or error status with empty body" % len(allterms),
               not flagged and not errors and not dup, json.dumps([dict(allinputs[i], clause=CLAUSES.get(c, c)) for i, s, c in flagged[:4]])[:4000])
    dist = {}
    for t in tgs:
        dist[str(t)] = dist.get(str(t), 0) + 1
    run.stream("requests", len(allterms), sum(1 for t in tgs if t not in (None,)),
               "all 24 presence combinations of c2 parameter / c2 header / Host / SNI, random requests with IDN, upper-case, over-long, ported, IPv6 and empty "
               "Hosts, c2 in the query and in a POST form, HTTP/1.0 over real TLS with and without SNI, listen port 443 when bindable; a template file "
               "160 (thorough: 1920) requests served CONCURRENTLY by 16-32 clients (IDs pairwise distinct, each script intact), also under the race detector; "
               "a template file edited, broken, removed and re-created between requests (every state twice), including edits that keep the file's size and modification time; non-trivial = every request (tag = address source / template state)",
               [allinputs[0], allinputs[-1]], {"address_source_tags": dist})
    # the same concurrent requests under Go's race detector: an unsynchronised source of IDs (or a shared buffer) is reported whatever the timing
    okr, rbin, rlog = vlib.build_overlay_test(run.rundir, "internal/hsrv", go="go", race=True)
    if not okr:
        run.oblige("race-detector build of the hsrv harness", False, rlog[-2000:])
    else:
        rres, rerr = vlib.run_overlay_test(rbin, "TestVerifHsrv", [{"i": 0, "cfg": {}, "acts": [PAR_ACT(16, 6 if run.tier == "quick" else 40)]}], run.rundir,
                                           tag="c07race", env=dict(os.environ, VERIF_TMP=run.rundir, GORACE="halt_on_error=0"), timeout=600)
        races = (rerr or "").count("DATA RACE")
        if races:
            run.violation("script-data-race", "Go's race detector reports unsynchronised accesses while /c requests are served concurrently: what makes each "
                          "script's ID fresh (or its text its own) is shared unsafely between requests",
                          {"stream": "race", "input": {"concurrent_requests": "16 clients x 6 rounds of GET /c"}, "detail": {"report_tail": (rerr or "")[-2500:]}})
        run.oblige("concurrent /c requests under the race detector: no data race reported", not races and not (rerr and "DATA RACE" not in rerr and not rres),
                   (rerr or "")[-1500:])
    run.assumptions += ["text/template (engine), idna.ToASCII (verdict taken from the real library per request), curl and /bin/sh are environment",
                        "distinctness of IDs rests on math/rand; observed per run, injectivity of the base-36 rendering is proved"]
    run.trusted += ["harness/overlay/hsrv", "props/c07.py", "coq/Model/Script.v tied by this correspondence"]


def replay(run, path):
    body = json.load(open(path))
    print(json.dumps(body.get("case") or body.get("broken"), indent=1)[:3000])
    print("re-run: bin/check C07 --tier quick")
    return 1
