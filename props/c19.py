"""C19 - Ctrl+O mutes only shell output, ends by itself after calm, loses nothing else."""
import itertools, json, os
import vlib

IMPORTS = "From CRS Require Import Lib.Bytes Model.Mute Judge.Common Judge.C19."
CLAUSES = {1: "C19 monitor failed on the implementation's trace: a status line was not written, shell output was dropped while not muted (or written "
              "while muted), or 'Unmuting' was not announced exactly when the pause had elapsed since the muting Ctrl+O / the last dropped output",
           2: "Ctrl+O pressed (as a real key, through the terminal's key handling) while shell output was being written: the mute was never announced "
              "and/or a later status line was never written - the terminal stopped for good",
           10: "model/implementation differ on what is written, dropped or announced at some instant"}
EV = {"o": "CtrlO", "p": "Plain", "s": "Status", "l": "Status", "j": "Status", "t": "Tick"}


def with_tail(evs):
    """Ticks after the last event so that the self-ending of the mute is observed at the exact millisecond."""
    t = evs[-1]["t"] if evs else 0
    return evs + [{"t": t + d, "ev": "t"} for d in (1, 1999, 2000, 2001, 4001)]


def grid(depth):
    gaps = [0, 1, 500, 1999, 2000, 2001]
    out = []
    for n in range(1, depth + 1):
        for combo in itertools.product([(e, g) for e in "ops" for g in gaps], repeat=n):
            t, evs = 0, []
            for e, g in combo:
                t += g
                evs.append({"t": t, "ev": e})
            out.append(with_tail(evs))
    return out


def rand_sched(rng):
    t, evs = 0, []
    for _ in range(rng.choice([5, 10, 20, 40])):
        mode = rng.randrange(10)
        if mode < 3:          # flood
            for _ in range(rng.randrange(3, 15)):
                t += rng.choice([0, 1, 10, 100, 700, 1500, 1999])
                evs.append({"t": t, "ev": "p"})
        else:
            t += rng.choice([0, 1, 5, 250, 1000, 1998, 1999, 2000, 2001, 2002, 2500, 4000, 4001, rng.randrange(0, 5000)])
            evs.append({"t": t, "ev": rng.choice("oppssl" "tj")})
    return with_tail(evs)


def mo(x, k, ev):
    r = []
    for m in x or []:
        r.append({"Unmuting": "AnnUnmuting", "Already muted": "AnnAlready", "Muting until": "AnnMuting"}.get(m, "Wrote"))
    return r


def term(c, r):
    evs, obs = [], []
    for k, (e, o) in enumerate(zip(c["events"], r.get("obs") or [])):
        if e["ev"] == "b":
            # a backlog of status line, shell chunk, status line, taken up at one instant: three events of the model
            raw = o.get("after") or []
            evs += ["(%d%%Z, Status)" % e["t"], "(%d%%Z, Plain)" % e["t"], "(%d%%Z, Status)" % e["t"]]
            obs.append("([%s], [%s])" % ("; ".join(mo(o.get("before"), k, e)), "Wrote" if "<Q%d>" % k in raw else ""))
            obs.append("([], [%s])" % ("Wrote" if "<P%d>" % k in raw else "Dropped"))
            obs.append("([], [%s])" % ("Wrote" if "<S%d>" % k in raw else ""))
            continue
        evs.append("(%d%%Z, %s)" % (e["t"], EV[e["ev"]]))
        after = mo(o.get("after"), k, e)
        if e["ev"] == "p" and "Wrote" not in after:
            after = after + ["Dropped"]
        obs.append("([%s], [%s])" % ("; ".join(mo(o.get("before"), k, e)), "; ".join(after)))
    if len(r.get("obs") or []) != len(c["events"]):
        evs = ["(%d%%Z, %s)" % (e["t"], EV.get(e["ev"], "Tick")) for e in c["events"]]
    return "mk [%s] [%s]" % ("; ".join(evs), "; ".join(obs))


def backlog(rng, n):
    """Ctrl+O, then backlogs (status, chunk, status queued while the terminal is busy) at gaps around the pause, mixed with ordinary events."""
    out = []
    gaps = [0, 1, 500, 1999, 2000, 2001]
    for g1 in gaps:
        for g2 in gaps:
            out.append(with_tail([{"t": 0, "ev": "o"}, {"t": g1, "ev": "b"}, {"t": g1 + g2, "ev": "b"}]))
            out.append(with_tail([{"t": 0, "ev": "b"}, {"t": g1, "ev": "o"}, {"t": g1 + g2, "ev": "b"}]))
    for g1 in gaps:             # Ctrl+J (a local printout) while muted: shown, and no influence on when the mute ends
        out.append(with_tail([{"t": 0, "ev": "o"}, {"t": g1, "ev": "j"}]))
        out.append(with_tail([{"t": 0, "ev": "o"}, {"t": 500, "ev": "j"}, {"t": 500 + g1, "ev": "j"}, {"t": 1000 + g1, "ev": "p"}]))
    for _ in range(n):
        t, evs = 0, []
        for _ in range(rng.choice([4, 8, 16])):
            t += rng.choice([0, 1, 5, 250, 1000, 1999, 2000, 2001, 2500, 4001])
            evs.append({"t": t, "ev": rng.choice("obbppsj")})
        out.append(with_tail(evs))
    return out


def run_cases(run, binp, cases, tag):
    inf, outf = os.path.join(run.rundir, tag + ".in"), os.path.join(run.rundir, tag + ".out")
    with open(inf, "w") as f:
        for c in cases:
            f.write(json.dumps(c) + "\n")
    env = dict(os.environ, VERIF_CASES=inf, VERIF_OUT=outf, VERIF_TMP=run.rundir)
    rc, out = vlib.run_under_pty([binp, "-test.run", "^TestVerifMute$", "-test.count=1", "-test.timeout", "600s"], env, run.rundir, timeout=700)
    res = [json.loads(l) for l in open(outf)] if os.path.exists(outf) else []
    return rc, out, res


def check(run):
    vlib.static_obligations(run)
    ok, binp, log = vlib.build_overlay_test(run.rundir, "lib/opshell")
    run.checker_cmds.append("go1.26 test -c -tags verif -overlay (harness/overlay/opshell injected into /repo/lib/opshell); TestVerifMute replays timed "
                            "event lists on the real opshell.New shell inside testing/synctest, run as a pty child")
    if not ok:
        run.oblige("harness builds against /repo", False, log)
        return
    # the pause constant the model uses is the program's
    src = open(os.path.join(vlib.REPO, "lib/opshell/opshell.go")).read()
    import re
    m = re.search(r"PlainWritePause\s*=\s*(\d+)\s*\*\s*time\.(Second|Millisecond)", src)
    pause_ms = int(m.group(1)) * (1000 if m.group(2) == "Second" else 1) if m else None
    run.oblige("source obligation: PlainWritePause = 2 s (the model's pause, the statement's 'two seconds')", pause_ms == 2000, "found %s" % pause_ms)
    g = [{"i": k, "events": e} for k, e in enumerate(grid(3 if run.tier == "quick" else 4))]
    rnd = [{"i": k, "events": rand_sched(run.rng)} for k in range(300 if run.tier == "quick" else 5000)]
    bl = [{"i": k, "events": e} for k, e in enumerate(backlog(run.rng, 60 if run.tier == "quick" else 2000))]
    for name, cases, rule in (("backlog", bl, "a backlog in the operator channel (depth 1024, as in the program): while the terminal is busy a status line, a "
                               "shell chunk and another status line pile up and are then taken at one instant - after Ctrl+O at gaps 0, 1, 500, 1999, 2000, "
                               "2001 ms, before it, twice in a row, and mixed at random with ordinary events; every status line must be written, the chunk "
                               "dropped exactly while muted"),
                              ("grid", g, "EXHAUSTIVE schedules of 1-%d events (Ctrl+O / shell output / status line) with gaps 0, 1, 500, 1999, 2000, 2001 ms - "
                               "gaps just below, at and above the pause - each followed by ticks at +1, +1999, +2000, +2001, +4001 ms" % (3 if run.tier == "quick" else 4)),
                              ("random", rnd, "random millisecond schedules of 5-40 steps with floods (3-14 outputs 0-1999 ms apart), repeated Ctrl+O while "
                               "muted, several mute cycles, status lines through the channel and through Logf")):
        rc, out, res = run_cases(run, binp, cases, name)
        if rc != 0 or len(res) != len(cases) or any(r.get("fail") for r in res):
            run.oblige("%s: harness ran all schedules under a pty" % name, False, "rc=%s got %d of %d: %s %s" % (
                rc, len(res), len(cases), out[-1500:].decode(errors="replace"), [r["fail"] for r in res if r.get("fail")][:2]))
            continue
        vlib.judge_stream(run, name, IMPORTS, "case", cases, res, term, CLAUSES, (0,), rule + "; non-trivial = distinct schedule in which something was "
                          "dropped, an unmute happened or Ctrl+O was repeated while muted", key_fn=lambda c: json.dumps(c["events"]))
    # the lock-order model against the source: shape of the handler and the writers, regenerated from the working tree
    okl, gen, llog = vlib.run_translator(run, "lockshape")
    run.checker_cmds.append("translator/lockshape (go/parser over /repo/lib/opshell/opshell.go) -> GenLock.v ; coqc GenDepC19.v (shape = Model/LockOrder.lock_shape_of_model)")
    if not okl:
        run.oblige("translator lockshape ran on /repo's working tree", False, llog[-2000:])
    else:
        open(os.path.join(run.rundir, "GenLock.v"), "w").write(gen)
        open(os.path.join(run.rundir, "GenDepC19.v"), "w").write(
            "From CRS Require Import Lib.Bytes Model.LockOrder Props.C19.\nFrom Gen Require Import GenLock.\n"
            "Theorem c19_tree_lock_shape : (handler_sync_locks, writers_take_wl_first) = lock_shape_of_model.\nProof. vm_compute. reflexivity. Qed.\n"
            "Print Assumptions c19_tree_lock_shape.\n")
        rc1, o1, e1 = vlib.coqc("GenLock.v", run.rundir, extra_q=[(run.rundir, "Gen")])
        rc2, o2, e2 = vlib.coqc("GenDepC19.v", run.rundir, extra_q=[(run.rundir, "Gen")]) if rc1 == 0 else (1, "", "")
        run.oblige("per-run obligation c19_tree_lock_shape: in the working tree the Ctrl+O handler takes no lock synchronously (goxterm calls it with the "
                   "terminal's lock held) and writePlain / Logf lock Shell.wL first - the shape c19_ctrl_o_no_deadlock is about",
                   rc1 == 0 and rc2 == 0, (gen + o1 + e1 + o2 + e2)[-2500:])
    # Ctrl+O as a real key press, concurrent with writes
    kc = [{"i": k, "mode": "forced"} for k in range(3 if run.tier == "quick" else 20)]
    for k in range(6 if run.tier == "quick" else 200):
        n = run.rng.choice([50, 200, 600])
        kc.append({"i": len(kc), "mode": "free", "chunks": n, "key_at": run.rng.randrange(0, n)})
    nkey = len(kc)
    for k in range(1 if run.tier == "quick" else 4):
        kc.append({"i": len(kc), "mode": "lockwin"})
        kc.append({"i": len(kc), "mode": "lockwin2"})
    inf, outf = os.path.join(run.rundir, "key.in"), os.path.join(run.rundir, "key.out")
    with open(inf, "w") as f:
        for c in kc:
            f.write(json.dumps(c) + "\n")
    env = dict(os.environ, VERIF_CASES=inf, VERIF_OUT=outf, VERIF_TMP=run.rundir)
    rc, out = vlib.run_under_pty([binp, "-test.run", "^TestVerifCtrlOKey$", "-test.count=1", "-test.timeout", "900s"], env, run.rundir, timeout=1000)
    kres = [json.loads(l) for l in open(outf)] if os.path.exists(outf) else []
    if rc != 0 or len(kres) != len(kc) or any(r.get("fail") for r in kres):
        run.oblige("keypress: harness ran all cases under a pty", False, "rc=%s got %d of %d: %s %s" % (
            rc, len(kres), len(kc), out[-1500:].decode(errors="replace"), [r["fail"] for r in kres if r.get("fail")][:2]))
    else:
        B_ = lambda x: str(bool(x)).lower()
        lw = [(c, r) for c, r in zip(kc, kres) if c["mode"].startswith("lockwin")]
        kc, kres = kc[:nkey], kres[:nkey]
        def lwterm(c, r):
            if c["mode"] == "lockwin2":     # no output at all: the calm is up at 2.0 s (announced as soon as the write lock is free), output at 3.0 s is shown
                return "mk [(0%%Z, CtrlO); (3000%%Z, Tick); (3001%%Z, Plain)] [([], [AnnMuting]); ([%s], []); ([], [%s])]" % (
                    "AnnUnmuting" if r.get("unmuted_at_3000") else "", "Wrote" if r.get("chunk_shown") else "Dropped")
            e = "[(0%Z, CtrlO); (1900%Z, Plain); (3000%Z, Tick); (4800%Z, Tick)]"   # the chunk ARRIVES at 1.9 s (it is written, i.e. dropped, at 2.15 s)
            early, late = r.get("unmuted_at_3000"), r.get("unmuted_at_4800")
            o = "[([], [AnnMuting]); ([], [%s]); ([%s], []); ([%s], [])]" % ("Wrote" if r.get("chunk_shown") else "Dropped", "AnnUnmuting" if early else "",
                                                                              "AnnUnmuting" if (late and not early) else "")
            return "mk %s %s" % (e, o)
        if lw:
            vlib.judge_stream(run, "lockwindow", IMPORTS, "case", [c for c, _ in lw], [r for _, r in lw], lwterm, CLAUSES, (),
                              "real time: Ctrl+O, then the Shell's write lock is held from 1.9 s to 2.15 s (a long write to a slow terminal); a chunk of shell "
                              "output waits for the lock, the silence timer fires at 2.0 s and its callback waits behind the chunk; after the release the chunk "
                              "is dropped and re-arms the mute, so nothing may be announced at 3.0 s and 'Unmuting' must have appeared by 4.8 s",
                              key_fn=lambda c: json.dumps(c))
        vlib.judge_stream(run, "keypress", IMPORTS, "kcase", kc, kres, lambda c, r: "mkk %s %s" % (B_(r.get("muting_announced")), B_(r.get("status_written"))),
                          CLAUSES, (), "Ctrl+O as a real key press: the real Shell.Do with its input on a pipe, the byte 0x0F going through goxterm's key "
                          "handling (which runs the Shell's handler with the terminal's lock held) while shell output is being written - 'forced': the "
                          "handler is held for 100 ms after entry while a chunk's write gets under way (an unlucky but legal schedule, made "
                          "deterministic); 'free': floods of 50-600 chunks with the key pressed at a random point, real timing; afterwards the mute "
                          "must have been announced and a later status line written", judge="judge_key",
                          key_fn=lambda c: json.dumps(c), vkey=lambda i, r, cl: "ctrl-o-during-write")
    run.assumptions += ["Go timers fire at their deadline (testing/synctest's virtual clock = the model's clock); what is due at t fires before the event at t",
                        "terminal rendering by goxterm: presence of the marker text in what reaches stdout counts as 'written'",
                        "the ^O handler is invoked directly (goxterm calls it with its own lock held: a lock-order inversion between Terminal.lock and "
                        "Shell.wL exists in the unchanged code when Ctrl+O is typed exactly during a write; not exercised here)"]
    run.trusted += ["harness/overlay/opshell (synctest + pty)", "props/c19.py generators", "hand-written model coq/Model/Mute.v; tie = this correspondence"]


def replay(run, path):
    def runner(case):
        ok, binp, log = vlib.build_overlay_test(run.rundir, "lib/opshell")
        c = {"i": 0, "events": case["input"]["events"]}
        rc, out, res = run_cases(run, binp, [c], "replay")
        fl, tags, errors, _ = vlib.coq_eval(run.rundir, "replayj", IMPORTS, "case", [term(c, res[0])], "judge_all")
        txt = "\n".join("  t=%5d %s  before=%s after=%s" % (e["t"], e["ev"], o.get("before"), o.get("after")) for e, o in zip(c["events"], res[0]["obs"]))
        return fl, txt + "\njudge: %s %s" % ([(s, CLAUSES.get(k, k)) for _, s, k in fl], errors)
    return vlib.replay_generic(run, path, runner)
