"""C20 - start-up failures and normal exits are reported cleanly, never as a crash."""
import fcntl, itertools, json, os, select, signal, socket, struct, subprocess, termios, time
import vlib

IMPORTS = "From CRS Require Import Lib.Bytes Model.Startup Judge.Common Judge.C20."
CLAUSES = {1: "the program's output contains a Go panic / stack trace", 2: "the program did not exit by itself (it had to be killed)",
           3: "a start-up condition that cannot be satisfied did not give a non-zero status with a message naming that cause",
           4: "the terminal was not returned to the mode it was found in", 10: "model/implementation differ on the exit status"}


def traffic(out, n):
    """n HTTPS requests for /c against the address the program says it listens on (makes the program allocate: garbage collections happen)"""
    import re, ssl
    m = re.search(rb"https://127\.0\.0\.1:(\d+)/c", out)
    if not m:
        return
    ctx = ssl.create_default_context(); ctx.check_hostname = False; ctx.verify_mode = ssl.CERT_NONE
    for _ in range(n):
        try:
            c = ctx.wrap_socket(socket.create_connection(("127.0.0.1", int(m.group(1))), timeout=3))
            c.sendall(b"GET /c HTTP/1.1\r\nHost: h\r\nConnection: close\r\n\r\n")
            while c.recv(65536):
                pass
            c.close()
        except OSError:
            pass


def spawn(argv, env, cwd, mode, keys=None, wait_for=b"Listening on", timeout=8.0, ntraffic=0):
    """mode: 'pty' (controlling pty on 0,1,2), 'pty-stdin-null' (controlling pty, stdin from /dev/null), 'notty' (no controlling terminal)."""
    if mode == "notty":
        p = subprocess.Popen(argv, env=env, cwd=cwd, stdin=subprocess.DEVNULL, stdout=subprocess.PIPE, stderr=subprocess.STDOUT, start_new_session=True)
        try:
            out, _ = p.communicate(timeout=timeout)
            return p.returncode, out, True, False
        except subprocess.TimeoutExpired:
            p.kill(); out, _ = p.communicate()
            return 999, out, True, False
    master, slave = os.openpty()
    fcntl.ioctl(slave, termios.TIOCSWINSZ, struct.pack("HHHH", 40, 160, 0, 0))
    before = termios.tcgetattr(slave)
    pid = os.fork()
    if pid == 0:
        try:
            os.setsid()
            fcntl.ioctl(slave, termios.TIOCSCTTY, 0)
            if mode == "pty-stdin-null":
                n = os.open("/dev/null", os.O_RDONLY); os.dup2(n, 0)
            else:
                os.dup2(slave, 0)
            os.dup2(slave, 1); os.dup2(slave, 2)
            os.close(master)
            os.chdir(cwd)
            os.execvpe(argv[0], argv, env)
        finally:
            os._exit(127)
    out, t0, sent, rc = b"", time.time(), False, None
    while True:
        r, _, _ = select.select([master], [], [], 0.05)
        if r:
            try:
                d = os.read(master, 65536)
            except OSError:
                d = b""
            out += d
        if keys and not sent and wait_for in out and (not ntraffic or b"/c | /bin/sh" in out):
            time.sleep(0.15)
            if ntraffic:
                traffic(out, ntraffic)
                timeout += 10
                time.sleep(0.2)
                while select.select([master], [], [], 0.05)[0]:
                    try:
                        out += os.read(master, 65536)
                    except OSError:
                        break
            os.write(master, keys); sent = True
        p, st = os.waitpid(pid, os.WNOHANG)
        if p:
            rc = os.waitstatus_to_exitcode(st)
            # drain what is left
            while True:
                r, _, _ = select.select([master], [], [], 0.05)
                if not r:
                    break
                try:
                    d = os.read(master, 65536)
                except OSError:
                    break
                if not d:
                    break
                out += d
            break
        if time.time() - t0 > timeout:
            os.kill(pid, signal.SIGKILL); os.waitpid(pid, 0); rc = 999
            break
    after = termios.tcgetattr(slave)
    os.close(master); os.close(slave)
    return rc, out, before == after, True


def cause_of(out):
    t = out.decode(errors="replace")
    if "logfile" in t:
        return 1
    if "Ctrl+I" in t:
        return 2
    if "/dev/tty" in t or "controlling TTY" in t:
        return 3
    if "certificate" in t:
        return 4
    if "bind" in t or "listening on" in t.lower() and "Error" in t:
        return 5
    return 0


def scenario(run, binp, k, mode, flags, faults, ending="eof", ntraffic=0):
    d = os.path.join(run.rundir, "s%d" % k)
    os.makedirs(d, exist_ok=True)
    open(os.path.join(d, "afile"), "w").write("x")
    argv = [binp]
    cache = os.path.join(d, "cache", "deep", "cert.txtar")
    if "cache_damaged" in faults:
        os.makedirs(os.path.dirname(cache), exist_ok=True); open(cache, "w").write("this is not a certificate cache\n-- cert --\nzzz\n")
    if "cache_dangling" in faults:        # the cache path is a symbolic link into a directory that does not exist
        os.makedirs(os.path.join(d, "cachelink"), exist_ok=True)
        cache = os.path.join(d, "cachelink", "cert.txtar")
        if not os.path.lexists(cache):
            os.symlink(os.path.join(d, "no-such-dir", "cert.txtar"), cache)
    if "cache_unwritable" in faults:
        cache = os.path.join(d, "afile", "sub", "cert.txtar")
    argv += ["-tls-certificate-cache", cache]
    listen, hold = "127.0.0.1:0", None
    if "listen_nonlocal" in faults:
        listen = "203.0.113.9:4444"
    if "listen_noport" in faults:
        listen = "203.0.113.9"
    if "listen_badport" in faults:          # never becomes a socket address at all
        listen = "127.0.0.1:65536"
    if "listen_badservice" in faults:
        listen = "127.0.0.1:no-such-service"
    if "listen_inuse" in faults:
        hold = socket.socket(); hold.bind(("127.0.0.1", 0)); hold.listen(1); listen = "127.0.0.1:%d" % hold.getsockname()[1]
    argv += ["-listen-address", listen]
    if "log" in flags or "log_bad" in faults:
        argv += ["-log", os.path.join(d, "afile", "x.log") if "log_bad" in faults else os.path.join(d, "ok.log")]
    if "ctrl_i_dangling" in faults:       # a source directory holding a script which has been lost (dangling link)
        os.makedirs(os.path.join(d, "funcs"), exist_ok=True)
        open(os.path.join(d, "funcs", "ok.sh"), "w").write("f() { :; }\n")
        if not os.path.lexists(os.path.join(d, "funcs", "lost.sh")):
            os.symlink(os.path.join(d, "gone-away.sh"), os.path.join(d, "funcs", "lost.sh"))
        argv += ["-ctrl-i", os.path.join(d, "funcs")]
    elif "ctrl_i" in flags or "ctrl_i_missing" in faults:
        argv += ["-ctrl-i", os.path.join(d, "nonexistent-dir") if "ctrl_i_missing" in faults else os.path.join(d, "afile")]
    for f in ("print-default-template", "print-ctrl-i", "h", "one-shell"):
        if f in flags:
            argv.append("-" + f)
    env = dict(os.environ, HOME=d, XDG_CACHE_HOME=os.path.join(d, "xdg"))
    env.pop("CURLREVSHELL_LOG", None)
    if ntraffic:
        env["GOGC"] = "1"                   # collect garbage eagerly: whatever only a finalizer keeps alive goes away during the session
    if "cache_fsize" in faults:             # the cache file can be created but not written: the process may not write files beyond 512 bytes
        argv = ["/bin/sh", "-c", 'ulimit -f 1; exec "$@"', "sh"] + argv
    keys = {"eof": b"\x04", "ctrl-c": b"\x03"}.get(ending)
    rc, out, same, tty = spawn(argv, env, d, mode, keys=keys if mode == "pty" else None, ntraffic=ntraffic)
    if hold:
        hold.close()
    return {"k": k, "mode": mode, "flags": sorted(flags), "faults": sorted(faults), "ending": ending, "requests_served_before_exit": ntraffic, "rc": rc,
            "crash": (b"panic:" in out or b"goroutine " in out or b"SIGSEGV" in out), "cause": cause_of(out) if rc not in (0,) else 0,
            "termios_same": same, "tty": tty, "output": out[-600:].decode(errors="replace")}


def term(s):
    fl, fa = s["flags"], s["faults"]
    cfg = "{| print_template := %s; print_ctrl_i := %s; log_set := %s; ctrl_i_set := %s |}" % (
        str("print-default-template" in fl).lower(), str("print-ctrl-i" in fl).lower(),
        str("log" in fl or "log_bad" in fa).lower(), str("ctrl_i" in fl or "ctrl_i_missing" in fa or "ctrl_i_dangling" in fa).lower())
    flt = "{| no_tty := %s; bad_listen := %s; cache_bad := %s; log_bad := %s; ctrl_i_missing := %s |}" % (
        str(s["mode"] == "notty").lower(), str(any(x.startswith("listen_") for x in fa)).lower(),
        str(any(x.startswith("cache_") for x in fa)).lower(), str("log_bad" in fa).lower(), str("ctrl_i_missing" in fa or "ctrl_i_dangling" in fa).lower())
    return "mk %s %s Eof %d %s %d %s %s" % (cfg, flt, s["rc"], str(s["crash"]).lower(), s["cause"], str(s["tty"]).lower(), str(s["termios_same"]).lower())


def startorder_obligation(run):
    oks, gen, slog = vlib.run_translator(run, "startorder")
    run.checker_cmds.append("translator/startorder (go/parser over /repo/curlrevshell.go) -> GenStart.v ; coqc GenDepC20.v (startup_order_matches, no abrupt exit after opshell.New)")
    if not oks:
        run.oblige("translator startorder ran on /repo's working tree", False, slog[-2000:])
        return
    open(os.path.join(run.rundir, "GenStart.v"), "w").write(gen)
    open(os.path.join(run.rundir, "GenDepC20.v"), "w").write(
        "From Coq Require Import List String.\nFrom CRS Require Import Lib.Bytes Model.Startup Props.C20.\nFrom Gen Require Import GenStart.\n"
        "Theorem c20_tree_startup_order : rmain_found = 1%nat /\\ abrupt_exits_after_terminal_setup = 0%nat /\\ startup_order_matches startup_order = true.\n"
        "Proof. vm_compute. repeat split; reflexivity. Qed.\nPrint Assumptions c20_tree_startup_order.\n")
    rc1, o1, e1 = vlib.coqc("GenStart.v", run.rundir, extra_q=[(run.rundir, "Gen")])
    rc2, o2, e2 = vlib.coqc("GenDepC20.v", run.rundir, extra_q=[(run.rundir, "Gen")]) if rc1 == 0 else (1, "", "")
    run.oblige("per-run obligation c20_tree_startup_order: rmain of the working tree goes through its start-up steps in the order Model/Startup.rmain checks "
               "their faults (template exit, log file, Ctrl+I exit, terminal, deferred cleanup, HTTPS service) and never ends the process abruptly "
               "(log.Fatal*, os.Exit, panic) once the terminal has been set up", rc1 == 0 and rc2 == 0, (gen + o1 + e1 + o2 + e2)[-2500:])


def check(run):
    vlib.static_obligations(run)
    startorder_obligation(run)
    binp = os.path.join(run.rundir, "curlrevshell")
    rc, o, e = vlib.sh(["go", "build", "-o", binp, "."], cwd=vlib.REPO, env=vlib.GOENV, timeout=600)
    run.checker_cmds.append("go build -o curlrevshell /repo ; each scenario runs the real binary under a fresh pty (or without a controlling terminal), termios read before and after")
    if rc:
        run.oblige("the program builds", False, (o + e).decode()[-2000:])
        return
    singles = ["listen_nonlocal", "listen_inuse", "listen_noport", "listen_badport", "listen_badservice", "cache_damaged", "cache_unwritable", "cache_dangling",
               "cache_fsize", "log_bad"]
    plan = []
    for mode in ("pty", "pty-stdin-null", "notty"):
        plan.append((mode, set(), set()))
        for f in singles:
            plan.append((mode, set(), {f}))
        for a, b in itertools.combinations(["listen_nonlocal", "cache_damaged", "log_bad"], 2):
            plan.append((mode, set(), {a, b}))
        for info in ("print-default-template", "h"):
            plan.append((mode, {info}, set()))
            plan.append((mode, {info}, {"listen_nonlocal", "cache_damaged", "log_bad"}))
        plan.append((mode, {"print-ctrl-i"}, {"ctrl_i_missing"}))
        plan.append((mode, {"print-ctrl-i"}, {"ctrl_i_dangling"}))
        plan.append((mode, {"print-ctrl-i", "log"}, {"ctrl_i_missing"}))      # a working log file must not swallow the message
        plan.append((mode, {"log"}, {"listen_nonlocal"}))
        plan.append((mode, {"log"}, set()))
        plan.append((mode, {"print-ctrl-i"}, set()))                         # no source configured
        plan.append((mode, {"print-ctrl-i", "ctrl_i"}, {"listen_nonlocal"}))    # source present: succeeds whatever the listener
        plan.append((mode, {"print-ctrl-i", "ctrl_i"}, {"log_bad"}))
    plan.append(("pty", set(), set(), "ctrl-c"))
    plan.append(("pty", {"log", "ctrl_i"}, set(), "ctrl-c"))
    plan.append(("pty", set(), set(), "eof", 80))        # a session with some life in it (80 scripts served, eager GC) before the exit
    plan.append(("pty", set(), set(), "ctrl-c", 80))
    import concurrent.futures as cf
    with cf.ThreadPoolExecutor(max_workers=8) as ex:
        results = list(ex.map(lambda kp: scenario(run, binp, kp[0], *kp[1]), list(enumerate(plan))))
    # -h exits 0 by Go's flag package after printing usage: the model treats it like print-default-template
    for s in results:
        if "h" in s["flags"]:
            s["flags"] = sorted(set(s["flags"]) - {"h"} | {"print-default-template"})
    vlib.judge_stream(run, "scenarios", IMPORTS, "case", [{k: v for k, v in s.items() if k != "output"} for s in results], results,
                      lambda i, r: term(r), CLAUSES, (10,),
                      "the real binary, for every single start-up fault (non-local / in-use / port-less / out-of-range-port / unknown-service listen address, damaged / unwritable / "
                      "creatable-but-not-writable (RLIMIT_FSIZE) "
                      "certificate cache, cache path that is a dangling symbolic link, unopenable log file, missing Ctrl+I source, Ctrl+I source directory with a dangling link), pairs of them, each informational flag (-print-default-template, "
                      "-print-ctrl-i with and without source, -h) with and without faults, x three terminal situations: a controlling pty on stdin/stdout, a "
                      "controlling pty with stdin from /dev/null, no controlling terminal (setsid, /dev/null); normal exits by Ctrl+D and Ctrl+C typed into "
                      "the pty and by EOF on stdin, also after a session in which 80 scripts were served with eager garbage collection (GOGC=1); exit status, panic text, cause named in the message and termios before/after are observed",
                      key_fn=lambda i: json.dumps([i["mode"], i["flags"], i["faults"], i["ending"]]), shard=12)
    run.assumptions += ["goxterm.MakeRaw/Restore act on the controlling terminal as documented; termios is compared through the pty's slave side",
                        "the cause is recognised in the message through the failing system call's wording (logfile, /dev/tty, certificate, bind)",
                        "-one-shell completion as a normal exit is exercised at the Server level by C12 and mapped to status 0 by the model"]
    run.trusted += ["props/c20.py (pty driver)", "coq/Model/Startup.v"]


def replay(run, path):
    body = json.load(open(path))
    print(json.dumps(body.get("case") or body.get("broken"), indent=1)[:3000])
    print("re-run: bin/check C20 --tier quick")
    return 1
