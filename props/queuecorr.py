"""Tie of the fine-grained proxyOut model (coq/Model/ProxyOut.v) to the code: stalled-terminal cases replayed on the model (Judge/ProxyQ.v)."""
import json
import vlib

IMPORTS = "From CRS Require Import Lib.Bytes Model.ProxyOut Judge.Common Judge.ProxyQ."
CLAUSES = {30: "the fine-grained proxyOut model (queue of 2, operator channel of the given capacity, run to quiescence after every operation) predicts "
               "other chunks logged / shown by the end of this block of operations than the real Broker produced, or another number of reads still pending (how far the reader goroutine has run ahead)"}


def hops(case):
    """harness operations -> model operations of the (single) output stream; plus the wind-down: cancel, then drain everything"""
    out_sid = next((o["s"] for o in case["ops"] if o["op"] == "admit" and o.get("d") == "out"), None)
    hs, ended = [], False
    for o in case["ops"]:
        if o["op"] == "data" and o.get("s") == out_sid:
            d = bytes.fromhex(o.get("d", ""))
            hs.append("(HData %s %s)" % (vlib.coq_str(d), "true" if o.get("err") else "false"))
        elif o["op"] == "drain":
            hs.append("(HDrain %d)" % int(o.get("n", 1)))
        elif o["op"] == "cancel" and o.get("s") == out_sid:
            hs.append("HCancel")
        else:
            hs.append("HOther")
    return hs + ["HCancel", "(HDrain 1000)"], out_sid


def term(case, res):
    hs, out_sid = hops(case)
    C = res.get("consts", {})
    steps = [s for s in (res.get("steps") or []) if not s.get("final")]
    fin = [s for s in (res.get("steps") or []) if s.get("final")]
    logged, shown, pend = [], [], []
    for s in steps + [{}] + fin[:1]:
        pend.append("%d%%nat" % int((s.get("pend") or {}).get(str(out_sid), 0)))
        lg = [bytes.fromhex(r.get(C.get("kdata", "data"), "")) for r in s.get("log") or []
              if r.get("msg") == C.get("io") and r.get(C.get("kdir", "direction")) == C.get("vout", "output")]
        sh = [bytes.fromhex(x[1]) for x in s.get("och") or [] if x[0] == "plain"]
        logged.append("[%s]" % "; ".join(vlib.coq_str(x) for x in lg))
        shown.append("[%s]" % "; ".join(vlib.coq_str(x) for x in sh))
    if len(steps) != len(case["ops"]) or not fin:
        logged, shown, pend = [], [], []          # incomplete run: reported as a mismatch by the walk
    return "mkq %d [%s] [%s] [%s] [%s]" % (int(case.get("ochcap", 4096)), "; ".join(hs), "; ".join(logged), "; ".join(shown), "; ".join(pend))


def usable(case):
    """one output stream, chunks within one read of the broker's 2048-byte buffer"""
    outs = [o for o in case["ops"] if o["op"] == "admit" and o.get("d") == "out"]
    return len(outs) == 1 and all(len(o.get("d", "")) // 2 <= 2048 for o in case["ops"] if o["op"] == "data") and case.get("ochcap")


def run(run_, name, cases, results):
    pairs = [(c, r) for c, r in zip(cases, results) if usable(c)]
    if not pairs:
        return
    vlib.judge_stream(run_, name + "_queue", IMPORTS, "qcase", [c for c, _ in pairs], [r for _, r in pairs], term, CLAUSES, (0,),
                      "the same stalled-terminal cases replayed on the FINE-GRAINED proxyOut model (reader, queue of 2, forwarding loop, operator "
                      "channel of capacity 1-3) with a run-to-quiescence scheduler: which chunks have been logged and shown by the end of every "
                      "block of operations, and how many offered reads the reader goroutine has not yet taken (this exposes the internal queue's "
                      "capacity), must agree exactly - this ties the model the C03/C04/C11 queue theorems are about to the code; "
                      "non-trivial = some chunk had to wait inside the broker (tag 2: cancelled with chunks waiting)",
                      judge="judge_q", key_fn=lambda c: json.dumps(c["ops"]) + str(c.get("ochcap")))
